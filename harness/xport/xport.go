// Package xport is an in-memory stream transport (io.ReadWriteCloser) whose
// read partition, write records, failures and suspension points are under
// the exact control of the harness. It behaves like a stream socket: one
// Read returns at most one queued chunk, blocks when nothing is queued and
// returns (0,nil) for an empty buffer. The read and the write half use
// separate locks, so that the transport does not add happens-before edges
// between a client write and the library's reader goroutine.
package xport

import (
	"errors"
	"fmt"
	"io"
	"runtime"
	"strconv"
	"strings"
	"sync"
	"sync/atomic"
	"time"
)

// ErrClosed is what Read/Write return after Close, like a closed socket.
var ErrClosed = errors.New("xport: use of closed transport")

// timeoutErr is a net.Error-style timeout.
type timeoutErr struct{}

func (timeoutErr) Error() string   { return "xport: i/o timeout" }
func (timeoutErr) Timeout() bool   { return true }
func (timeoutErr) Temporary() bool { return true }

// ErrTimeout is a timeout-style net.Error.
var ErrTimeout error = timeoutErr{}

// ErrReset is a reset-style error.
var ErrReset = errors.New("xport: connection reset by peer")

// WriteRec is one Write call as seen by the transport.
type WriteRec struct {
	Seq  int64
	Data []byte
	GID  int64
}

// Gate parks a call until released.
type Gate struct {
	entered chan struct{}
	release chan struct{}
	once    sync.Once
}

func newGate() *Gate { return &Gate{entered: make(chan struct{}), release: make(chan struct{})} }

// Entered is closed once a call is parked on the gate.
func (g *Gate) Entered() <-chan struct{} { return g.entered }

// Open releases the gate (idempotent).
func (g *Gate) Open() { g.once.Do(func() { close(g.release) }) }

func (g *Gate) pass() {
	close(g.entered)
	<-g.release
}

type Transport struct {
	// read half
	rmu       sync.Mutex
	rcond     *sync.Cond
	chunks    [][]byte
	termErr   error
	termWith  bool // deliver termErr together with the last chunk
	termArmed bool
	closed    bool
	parked    bool
	readCalls int64
	termReads int64 // Read calls that returned the terminal error
	readerGID int64
	readGates map[int64]*Gate // by read call index (1-based)
	bytesRead int64
	// soft EOF window: while softFrom <= bytesRead < softTo a Read that
	// finds nothing to deliver returns (0, io.EOF) after a short pause
	// instead of blocking ("nothing there at the moment")
	softFrom, softTo int64
	softReads        int64

	// write half
	wmu        sync.Mutex
	writes     []WriteRec
	wseq       int64
	writeCalls int64
	failWrite  int64 // fail the n-th write call (1-based), 0 = never
	failShort  int   // bytes reported as written by the failing call
	writeErr   error
	failSticky bool
	writeGates map[int64]*Gate
	// OnWrite is called after a successful write was recorded, on the
	// writer's goroutine, without transport locks held.
	OnWrite func(WriteRec)
	// YieldOnWrite makes every write call runtime.Gosched() n times before
	// recording (an existing suspension point between two packets).
	YieldOnWrite int32

	closeCalls int64
	// CloseErr is what Close returns (after closing): a transport whose
	// close reports a failure, as a TLS connection does when the peer is
	// gone and the closing alert cannot be written.
	CloseErr error
	// EOFOnEmptyRead: a Read with an empty buffer (the library reads the
	// "body" of a header-only packet that way) reports the terminal
	// condition when nothing is left, as bytes.Reader and pipe-like
	// transports do; the default answers (0, nil) like a socket.
	EOFOnEmptyRead bool
	// SoftEOFWithData: inside the soft EOF window the read that hands over
	// the last available bytes already reports (n, io.EOF).
	SoftEOFWithData bool
}

func New() *Transport {
	t := &Transport{readGates: map[int64]*Gate{}, writeGates: map[int64]*Gate{}}
	t.rcond = sync.NewCond(&t.rmu)
	return t
}

// GID returns the calling goroutine's id (parsed from its stack header).
func GID() int64 {
	var buf [64]byte
	n := runtime.Stack(buf[:], false)
	s := strings.TrimPrefix(string(buf[:n]), "goroutine ")
	if i := strings.IndexByte(s, ' '); i > 0 {
		v, _ := strconv.ParseInt(s[:i], 10, 64)
		return v
	}
	return -1
}

// ------------------------------------------------------------- read half

// Feed queues chunks; each chunk is returned by (at least) one Read.
func (t *Transport) Feed(chunks ...[]byte) {
	t.rmu.Lock()
	for _, c := range chunks {
		if len(c) == 0 {
			continue
		}
		t.chunks = append(t.chunks, append([]byte(nil), c...))
	}
	t.rcond.Broadcast()
	t.rmu.Unlock()
}

// FeedPartition queues stream cut at the given ascending offsets.
func (t *Transport) FeedPartition(stream []byte, cuts []int) {
	prev := 0
	var cs [][]byte
	for _, c := range cuts {
		if c <= prev || c >= len(stream) {
			continue
		}
		cs = append(cs, stream[prev:c])
		prev = c
	}
	cs = append(cs, stream[prev:])
	t.Feed(cs...)
}

// Terminate arms a terminal condition that takes effect once all queued
// chunks were consumed. withLast=true returns the error together with the
// last chunk's bytes (n>0, err), as io.Reader permits.
func (t *Transport) Terminate(err error, withLast bool) {
	t.rmu.Lock()
	t.termErr = err
	t.termWith = withLast
	t.termArmed = true
	t.rcond.Broadcast()
	t.rmu.Unlock()
}

func (t *Transport) Read(p []byte) (int, error) {
	t.rmu.Lock()
	t.readCalls++
	idx := t.readCalls
	if t.readerGID == 0 {
		t.readerGID = GID()
	}
	g := t.readGates[idx]
	t.rmu.Unlock()
	if g != nil {
		g.pass()
	}
	t.rmu.Lock()
	defer t.rmu.Unlock()
	for {
		if t.closed {
			return 0, ErrClosed
		}
		if len(p) == 0 {
			if t.EOFOnEmptyRead && len(t.chunks) == 0 && t.termArmed {
				t.termReads++
				return 0, t.termErr
			}
			return 0, nil
		}
		if len(t.chunks) > 0 {
			c := t.chunks[0]
			n := copy(p, c)
			if n < len(c) {
				t.chunks[0] = c[n:]
			} else {
				t.chunks = t.chunks[1:]
			}
			t.bytesRead += int64(n)
			if t.SoftEOFWithData && len(t.chunks) == 0 && !t.termArmed && t.bytesRead >= t.softFrom && t.bytesRead < t.softTo {
				// the last bytes available for now, handed over together
				// with "nothing more at the moment"
				t.softReads++
				return n, io.EOF
			}
			if len(t.chunks) == 0 && t.termArmed && t.termWith {
				t.termWith = false
				t.termReads++
				return n, t.termErr
			}
			return n, nil
		}
		if t.termArmed {
			t.termReads++
			return 0, t.termErr
		}
		if t.bytesRead >= t.softFrom && t.bytesRead < t.softTo {
			t.softReads++
			t.rmu.Unlock()
			time.Sleep(2 * time.Millisecond)
			t.rmu.Lock()
			if len(t.chunks) > 0 || t.closed {
				continue
			}
			return 0, io.EOF
		}
		t.parked = true
		t.rcond.Broadcast()
		t.rcond.Wait()
		t.parked = false
	}
}

// SoftEOF sets the window of stream offsets (bytes delivered so far) inside
// which a Read that finds nothing returns (0, io.EOF) instead of blocking.
func (t *Transport) SoftEOF(from, to int64) {
	t.rmu.Lock()
	t.softFrom, t.softTo = from, to
	t.rmu.Unlock()
}

// SoftReads is the number of Read calls answered with the transient EOF.
func (t *Transport) SoftReads() int64 {
	t.rmu.Lock()
	defer t.rmu.Unlock()
	return t.softReads
}

// AwaitIdle blocks until a Read call is parked with nothing left to
// deliver, i.e. the library's reader has processed everything fed so far
// and came back for more. Returns false if the transport was closed or a
// terminal condition is armed (the reader will not park then).
func (t *Transport) AwaitIdle() bool {
	t.rmu.Lock()
	defer t.rmu.Unlock()
	for {
		if t.closed || t.termArmed {
			return false
		}
		if t.parked && len(t.chunks) == 0 {
			return true
		}
		t.rcond.Wait()
	}
}

// IsIdle reports (without blocking) whether a Read call is parked with
// nothing left to deliver.
func (t *Transport) IsIdle() bool {
	t.rmu.Lock()
	defer t.rmu.Unlock()
	return t.parked && len(t.chunks) == 0 && !t.closed
}

// Pending reports whether undelivered chunks remain.
func (t *Transport) Pending() bool {
	t.rmu.Lock()
	defer t.rmu.Unlock()
	return len(t.chunks) > 0
}

// ReaderGID is the goroutine that made the first Read call (0 if none yet).
func (t *Transport) ReaderGID() int64 {
	t.rmu.Lock()
	defer t.rmu.Unlock()
	return t.readerGID
}

// TermReads is the number of Read calls that returned the terminal error.
func (t *Transport) TermReads() int64 {
	t.rmu.Lock()
	defer t.rmu.Unlock()
	return t.termReads
}

func (t *Transport) ReadCalls() int64 {
	t.rmu.Lock()
	defer t.rmu.Unlock()
	return t.readCalls
}

// GateRead parks the n-th Read call from now (1 = next) until opened.
func (t *Transport) GateRead(n int64) *Gate {
	t.rmu.Lock()
	defer t.rmu.Unlock()
	g := newGate()
	t.readGates[t.readCalls+n] = g
	return g
}

// ------------------------------------------------------------- write half

func (t *Transport) Write(p []byte) (int, error) {
	for i := atomic.LoadInt32(&t.YieldOnWrite); i > 0; i-- {
		runtime.Gosched()
	}
	t.wmu.Lock()
	t.writeCalls++
	idx := t.writeCalls
	g := t.writeGates[idx]
	t.wmu.Unlock()
	if g != nil {
		g.pass()
	}
	t.rmu.Lock()
	closed := t.closed
	t.rmu.Unlock()
	if closed {
		return 0, ErrClosed
	}
	t.wmu.Lock()
	if t.failWrite != 0 && (idx == t.failWrite || (t.failSticky && idx > t.failWrite)) {
		n := t.failShort
		if n > len(p) {
			n = len(p)
		}
		if idx > t.failWrite {
			n = 0
		}
		if n > 0 {
			t.wseq++
			t.writes = append(t.writes, WriteRec{Seq: t.wseq, Data: append([]byte(nil), p[:n]...), GID: -2})
		}
		err := t.writeErr
		t.wmu.Unlock()
		return n, err
	}
	t.wseq++
	rec := WriteRec{Seq: t.wseq, Data: append([]byte(nil), p...)}
	t.writes = append(t.writes, rec)
	cb := t.OnWrite
	t.wmu.Unlock()
	if cb != nil {
		cb(rec)
	}
	return len(p), nil
}

// FailWrite makes the n-th write call from now fail after reporting short
// bytes; sticky keeps all later writes failing too.
func (t *Transport) FailWrite(n int64, short int, err error, sticky bool) {
	t.wmu.Lock()
	t.failWrite = t.writeCalls + n
	t.failShort = short
	t.writeErr = err
	t.failSticky = sticky
	t.wmu.Unlock()
}

// GateWrite parks the n-th Write call from now (1 = next) until opened.
func (t *Transport) GateWrite(n int64) *Gate {
	t.wmu.Lock()
	defer t.wmu.Unlock()
	g := newGate()
	t.writeGates[t.writeCalls+n] = g
	return g
}

// Writes returns a copy of the write records so far.
func (t *Transport) Writes() []WriteRec {
	t.wmu.Lock()
	defer t.wmu.Unlock()
	return append([]WriteRec(nil), t.writes...)
}

// TakeWrites returns the write records so far and forgets them.
func (t *Transport) TakeWrites() []WriteRec {
	t.wmu.Lock()
	defer t.wmu.Unlock()
	w := t.writes
	t.writes = nil
	return w
}

func (t *Transport) WriteCalls() int64 {
	t.wmu.Lock()
	defer t.wmu.Unlock()
	return t.writeCalls
}

// ------------------------------------------------------------- close

func (t *Transport) Close() error {
	atomic.AddInt64(&t.closeCalls, 1)
	t.rmu.Lock()
	t.closed = true
	t.rcond.Broadcast()
	t.rmu.Unlock()
	return t.CloseErr
}

func (t *Transport) CloseCalls() int64 { return atomic.LoadInt64(&t.closeCalls) }

func (t *Transport) Closed() bool {
	t.rmu.Lock()
	defer t.rmu.Unlock()
	return t.closed
}

var _ io.ReadWriteCloser = (*Transport)(nil)

// ------------------------------------------------------------- packets

// Header is an independently written TDS packet header codec.
type Header struct {
	Type, Status  byte
	Length        uint16
	Channel       uint16
	PacketNr, Win byte
}

const EOM = 0x01

func (h Header) Bytes() []byte {
	return []byte{h.Type, h.Status, byte(h.Length >> 8), byte(h.Length), byte(h.Channel >> 8), byte(h.Channel), h.PacketNr, h.Win}
}

func ParseHeader(b []byte) (Header, error) {
	if len(b) < 8 {
		return Header{}, fmt.Errorf("short header: %d bytes", len(b))
	}
	return Header{Type: b[0], Status: b[1], Length: uint16(b[2])<<8 | uint16(b[3]), Channel: uint16(b[4])<<8 | uint16(b[5]), PacketNr: b[6], Win: b[7]}, nil
}

// Packet builds one packet.
func Packet(typ, status byte, channel uint16, body []byte) []byte {
	h := Header{Type: typ, Status: status, Length: uint16(8 + len(body)), Channel: channel}
	return append(h.Bytes(), body...)
}

// Packetize cuts body at the given ascending cut offsets into packets of
// the given type on the given channel; the last one carries EOM. Offsets
// equal to 0 or len(body) or repeated produce header-only packets only if
// allowEmpty is set, otherwise they are ignored.
func Packetize(typ byte, channel uint16, body []byte, cuts []int, allowEmpty bool) [][]byte {
	var out [][]byte
	prev := 0
	for _, c := range cuts {
		if c < prev || c > len(body) {
			continue
		}
		if c == prev && !allowEmpty {
			continue
		}
		if c == len(body) && !allowEmpty {
			continue
		}
		out = append(out, Packet(typ, 0, channel, body[prev:c]))
		prev = c
	}
	out = append(out, Packet(typ, EOM, channel, body[prev:]))
	return out
}

// Concat joins packets into one stream.
func Concat(pkts [][]byte) []byte {
	var s []byte
	for _, p := range pkts {
		s = append(s, p...)
	}
	return s
}

// SplitPackets parses a byte stream into packets (header + body).
func SplitPackets(stream []byte) ([]Header, [][]byte, error) {
	var hs []Header
	var bodies [][]byte
	for off := 0; off < len(stream); {
		h, err := ParseHeader(stream[off:])
		if err != nil {
			return hs, bodies, fmt.Errorf("at offset %d: %v", off, err)
		}
		if h.Length < 8 || off+int(h.Length) > len(stream) {
			return hs, bodies, fmt.Errorf("at offset %d: header length %d does not fit (%d left)", off, h.Length, len(stream)-off)
		}
		hs = append(hs, h)
		bodies = append(bodies, stream[off+8:off+int(h.Length)])
		off += int(h.Length)
	}
	return hs, bodies, nil
}
