#!/usr/bin/env python3
"""kf.py fixed <PROP> <commit-ish> <what>   |   kf.py finding <PROP> <signature> <what>"""
import json, subprocess, sys
p='/verif/known_findings.json'
k=json.load(open(p))
if sys.argv[1]=='fixed':
    prop, commit, what = sys.argv[2:5]
    h=subprocess.run(["git","-C","/repo","rev-parse","--short",commit],stdout=subprocess.PIPE,text=True).stdout.strip()
    k['fixed'].append({"property":prop,"commit":h,"what":"fixed: property=%s %s %s"%(prop,h,what)})
else:
    prop, sig, what = sys.argv[2:5]
    k['findings'].append({"property":prop,"signature":sig,"what":what})
json.dump(k,open(p,'w'),indent=1)
