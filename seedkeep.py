#!/usr/bin/env python3
"""seedkeep.py <ID> <k> <demo-dest> <demo-cmd> <caught: signatures or 'MISSED'> : store a verified seeded change under /verif/seeded/<ID>-<k>/"""
import sys, os, shutil, json, re
ID,k,dest,cmd,caught=sys.argv[1:6]
src=os.path.join(os.environ.get('SEEDSRC','/tmp/seed-out'),ID,k)
dst='/verif/seeded/%s-%s'%(ID,os.environ.get('KEEPAS',k))
os.makedirs(dst,exist_ok=True)
for f in os.listdir(src):
    shutil.copy(os.path.join(src,f),os.path.join(dst,f))
notes=open(os.path.join(src,'notes.md')).read() if os.path.exists(os.path.join(src,'notes.md')) else ''
meta={"property":ID,"seed":int(os.environ.get("KEEPAS",k)),
 "breaks":"see notes.md (written by the independent sub-agent that planted the change)",
 "needs_to_manifest": (re.search(r'(?is)(needs?[^\n]*\n(?:.*?\n){0,6})',notes) or [None,''])[1].strip()[:900],
 "demonstration":{"copy_into":dest,"command":cmd,"verified":"fails with the change, passes without (run by seedrun.sh in scratch copies of /repo); go build, go build -tags verif and the pinned suite pass with the change"},
 "checks_run":"VERIF_REPO=<scratch copy with patch> python3 run.py check %s --tier quick"%ID,
 "caught_by": caught}
json.dump(meta,open(os.path.join(dst,'meta.json'),'w'),indent=1)
print("kept",dst)
