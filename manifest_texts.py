NOT_BUILT_REASON = "check not built yet in this round (runtime monitoring applies; see DESIGN.md §4) — not claimed until its monitor exists and is silent on the unchanged tree"

TEXTS = {
 "C20": {
  "text": "Exhaustive over the stated domain: every sql.IsolationLevel -8..64 forward, every ASE level -2..8 backward with 20000 evaluations in-process plus 8/64 fresh processes; the oracle is the size of the observed answer set per input (must be 1) and the forward table by constant name. Held-on-observed, with a miss probability of 2^-20000 for a two-way random choice.",
  "note": "Assumes the four ASE levels are identified by the library's named constants; randomness of a map-order dependent answer is observed by repetition, not proved absent.",
  "technique": "runtime monitoring: repeated evaluation in-process and across fresh processes, answer-set-size oracle",
 },
 "C15": {
  "text": "Step-by-step comparison of every exported PacketQueue method's return values with a flat byte-slice model: all operation sequences up to length 5 (quick) / 7 (thorough) over an 11-operation receive alphabet exhaustively, plus 20k / 2M seeded sequences in three disciplines (receive with save/restore/discard/failed reads; write with changing packet size then read back; alternating writes and reads). Held-on-observed sequences.",
  "note": "Trusted base: the flat model in c15.go. Writing at a non-end position, reading past the written part of a partially filled written packet, and reuse of positions after a discard are not defined by a FIFO model and not generated.",
  "technique": "runtime monitoring: executable reference model compared online, exhaustive short histories + seeded random histories",
 },
 "C02": {
  "text": "Metamorphic runtime oracle on the real reader and parser: for a catalogue of 24 responses (every server package kind the client handles, 33 data types, narrow and wide formats) every single cut, pairs of cuts (all in thorough), all 2^(n-1) cut sets of streams of at most 14 bytes, one-byte bodies, seeded k-cut sets, header-only packets (inserted and as EOM carrier), and read partitions (one byte per read, every split inside every packet header, body splits, coalesced packets, seeded chunkings) must deliver exactly the canonical package dumps of the one-packet-one-read delivery with no error surfacing. Exhaustive for 1 cut and for short streams, sampled beyond; thorough adds a -race leg for schedule diversity. Held-on-observed.",
  "note": "Trusted base: harness/srv encoder, canon dump, xport transport. Equality is on reflection dumps of the delivered packages. The reference delivery must be clean or the response is discarded and counted.",
  "technique": "runtime monitoring: metamorphic differential delivery through the real reader goroutine and Channel.WritePacket, exhaustive cut enumeration + seeded partitions",
 },
 "C01": {
  "text": "Wire-capture monitor on the transport behind a real Conn: for messages of total length k*(ps-8)+d (k 1..3, d in {-1,0,+1}) plus tiny and seeded lengths, built from 7 client package kinds, with the packet size announced by the peer through ENVCHANGE between messages (quick: 49 sizes; thorough: every size 256..65535), 6 header types, both call splits, 3-6 successive messages per channel, channel 0 and a logical channel, every write record must be exactly one packet, bodies must concatenate to the packages' flat encodings, all but the last full, EOM on the last and only there, type/channel id/packet numbers correct. Exhaustive over packet sizes at the boundary lengths in thorough; held-on-observed.",
  "note": "Trusted base: the harness's flat recording BytesChannel (what the packages write) and header parser. Package encodings themselves are C06's subject. A packet-size change in the middle of a half-queued message is not in the property and not generated.",
  "technique": "runtime monitoring: transport write capture + framing/conservation oracle, boundary enumeration over all packet sizes",
 },
 "C18": {
  "text": "Recorded concurrent histories (1000 quick / 20000 thorough, up to 2k operations, 1..64 goroutines, GOMAXPROCS 1..16, forced GCs, hand-overs, double releases, Release(nil)) are checked by porcupine against a per-id held-bit model, by an online holder-map monitor (insert after Acquire returned, delete before Release is called), and by direct assertions on every name (id != 0, text == format applied to id for integer-verb formats, cleared after release); the whole workload runs under the Go race detector and a race report with a go-dblib frame is a violation. Held on the observed histories.",
  "note": "Trusted base: porcupine v1.3.0, the held-bit model, the race detector. Text is judged only for formats with exactly one integer verb; names change goroutine only through a channel (unordered releases of one *Name are misuse).",
  "technique": "runtime monitoring: linearizability checking of recorded histories (porcupine, partitioned by id) + online uniqueness monitor + race detector",
 },
 "C03": {
  "text": "Round-model monitor on a real Conn/Channel: histories of 2-6 request/response rounds over 14 response shapes (rows, several result sets, trailing DONE with status bits, DONE missing, params+status, EED and ENVCHANGE at package boundaries incl. directly before ROW/PARAMS, only-swallowed packages, empty response) x 6 packetisation classes x consumer policies (NextPackage loop; NextPackageUntil with the callback returning true / io.EOF / an error at every package index). Every ordered pair of shapes is enumerated as consecutive rounds, all abort points x outcomes per shape, plus 1.5k / 150k seeded histories. Per round the consumer must see exactly the model's list (server packages minus never-delivered ones plus one library-supplied final DONE iff needed), nothing may be left queued, no error may surface, an aborting callback's error must come back. Held-on-observed.",
  "note": "Trusted base: the round model (c03Expected) and the srv encoder. The consumer starts after the reader has processed the response (transport barrier); a blocked consumer is released by a 2 s watchdog and judged structurally (reader idle, nothing queued). DONEPROC/DONEINPROC are never generated with status 0 (the library cannot tell them from DONE).",
  "technique": "runtime monitoring: executable round model compared against recorded consumer histories, enumerated shape pairs + seeded histories",
 },
 "C16": {
  "text": "Differential oracle with math/big over all 779 (precision, scale) pairs: boundary values (0, +-1, +-10^k, +-(10^k-1)) exhaustively and seeded digit strings in many spellings, three classes (must-accept with exact unscaled value, must-reject, unspecified-but-never-a-changed-value), String() against the exact expansion and shape, SetString(String()) round trip, NewDecimal argument validation; all under a panic monitor. 2.1M quick / 16.5M thorough evaluations. Held-on-observed.",
  "note": "Trusted base: math/big. Over-long but representable spellings (extra zeros, '+', '.5', '5.') may be accepted exactly or rejected; only a changed value is judged. Precision 0 is outside the property.",
  "technique": "runtime monitoring: differential testing against a math/big reference, exhaustive over (precision, scale), panic monitor",
 },
 "C19": {
  "text": "Interval-model oracle with an independent semantic-version parser over a grid of 36 versions (pre-release, build suffixes, 1.10 vs 1.9): all capabilities with 0..2 ranges exhaustively, 3..4 seeded, all permutations of ranges and capabilities, pairing in NewCapability, error clauses (inverted / zero-width ranges, unparsable versions or bounds when evaluated), default and custom comparers. 1.25M quick / 23M thorough evaluations. Held-on-observed.",
  "note": "Trusted base: own semver comparator (cross-checked against the default comparer on the grid). Ranges after the first containing one are not evaluated by design and not judged; a range with no bound at all is counted, not judged; semver spellings on which parsers legitimately differ are kept off the judged grid.",
  "technique": "runtime monitoring: executable interval reference model, exhaustive small range sets + permutation metamorphic checks",
 },
 "C06": {
  "text": "Differential monitor with an independent reference codec (harness/refpkg): for every package type reachable from LookupPackage (+CURCLOSE, OPTIONCMD), narrow and wide, all option combinations, strings at 0/1/max-1/max of each prefix, every capability bit and seeded subsets, formats over all data types x status bits, rows/params over every decodable type, and login records with each field at every length 0..31: (1) library write -> library read reproduces the reflection dump and consumes exactly the bytes written; (2) every length/count field located by the reference decoder equals what follows; (3) reference-encoded server packages decode to the same fields; (4) the reference decoder recovers client packages field by field; (5) login record by absolute offsets, oversized fields rejected. 33k quick / 1.8M thorough evaluations. Held-on-observed, known findings for BLOB.",
  "note": "Trusted base: harness/refpkg (my reading of TDS 5.0; where unsure - CURUPDATE statement block, DYNAMIC statement block, CURDECLARE column count, BLOB layout - only writer against reader is judged), canon dump. Data types without a value decoder (SINT1, INTERVAL, BOUNDARY, SENSITIVITY) are tested as formats only.",
  "technique": "runtime monitoring: differential testing against an independent reference encoder/decoder + write/read round trip with byte accounting",
 },
 "C07": {
  "text": "Every proper prefix of ~1.9k (quick) / ~60k (thorough) valid encodings (library-written and reference-written, all package types and variants, rows/params over all data types) is parsed with a fresh package on a PacketQueue holding exactly the prefix: the result must satisfy errors.Is(err, ErrNotEnoughBytes) - not nil, not another error, no panic - and parsing the completed bytes afterwards must give the same dump as an undisturbed parse. 340k quick / 11.3M thorough prefix parses. Exhaustive over prefix lengths for encodings up to 4 KiB; held-on-observed.",
  "note": "Trusted base: the C06 generators and reference encoder for valid encodings; encodings the library itself cannot read back (C06's subject) are skipped and counted. BLOB columns are left out.",
  "technique": "runtime monitoring: exhaustive prefix enumeration with an error-class oracle and a resume-equivalence check",
 },
 "C11": {
  "text": "Event-log monitor (one atomic sequence counter; hooks log inside the reader, the consumer logs after receiving) over 5k quick / 400k thorough cases of 1-3 responses with 0-6 EED and ENVCHANGE packages at every package boundary, 5 packetisation classes, 0-3 message and environment hooks registered before or between responses, and a consumer running concurrently with the reader (NextPackage loop or NextPackageUntil with a failing callback at any index). Checks: every non-informational message to every registered hook exactly once in registration/arrival order; hook(e) before any later package of the response is received; every ENVCHANGE member to every hook once with (type, old, new); PacketSize() equals the last announced size; ENVCHANGE / informational EED never delivered; callback failure matches errors.Is and carries the messages received so far in order. Thorough adds a -race leg. Held-on-observed.",
  "note": "Trusted base: srv encoder, the event log. Both readings of 'received so far' for the carried message list are accepted; one NextPackageUntil call per response.",
  "technique": "runtime monitoring: online event log + offline exactly-once/ordering checker over recorded executions",
 },
}
