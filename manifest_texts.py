NOT_BUILT_REASON = "check not built yet in this round (runtime monitoring applies; see DESIGN.md §4) — not claimed until its monitor exists and is silent on the unchanged tree"

TEXTS = {
 "C20": {
  "text": "Exhaustive over the stated domain: every sql.IsolationLevel -8..64 forward, every ASE level -2..8 backward with 20000 evaluations in-process plus 8/64 fresh processes; the oracle is the size of the observed answer set per input (must be 1) and the forward table by constant name. Held-on-observed, with a miss probability of 2^-20000 for a two-way random choice.",
  "note": "Assumes the four ASE levels are identified by the library's named constants; randomness of a map-order dependent answer is observed by repetition, not proved absent.",
  "technique": "runtime monitoring: repeated evaluation in-process and across fresh processes, answer-set-size oracle",
 },
 "C15": {
  "text": "Step-by-step comparison of every exported PacketQueue method's return values with a flat byte-slice model: all operation sequences up to length 5 (quick) / 7 (thorough) over an 11-operation receive alphabet exhaustively, plus 20k / 2M seeded sequences in three disciplines (receive with save/restore/discard/failed reads; write with changing packet size then read back; alternating writes and reads). Held-on-observed sequences.",
  "note": "Trusted base: the flat model in c15.go. Writing at a non-end position, reading past the written part of a partially filled written packet, and reuse of positions after a discard are not defined by a FIFO model and not generated.",
  "technique": "runtime monitoring: executable reference model compared online, exhaustive short histories + seeded random histories",
 },
}
