#!/bin/bash
# seedrun.sh <ID> <k> <demo-dest-dir-relative-to-repo> "<go test command>" [CHECK...]
# Verifies a seeded change from /tmp/seed-out/<ID>/<k>: applies cleanly, builds, pinned suite passes,
# demonstration fails with it and passes without it; then runs the named checks (default: <ID>) against it.
set -u
ID=$1; K=$2; DEST=$3; CMD=$4; shift 4
CHECKS=${@:-$ID}
SRC=${SEEDSRC:-/tmp/seed-out}/$ID/$K
export GOFLAGS=-mod=mod GOPROXY=off GOSUMDB=off GOTOOLCHAIN=local
M=$(mktemp -d /tmp/seedrun.XXXXXX); C=$(mktemp -d /tmp/seedrun.XXXXXX)
rsync -a --exclude .git /repo/ $M/; rsync -a --exclude .git /repo/ $C/
( cd $M && patch -p1 -s < $SRC/patch.diff ) || { echo "PATCH DOES NOT APPLY"; rm -rf $M $C; exit 1; }
( cd $M && go build ./... && go build -tags verif ./... ) || echo "BUILD FAILS"
( cd $M && go test -vet=off -count=1 ./... 2>&1 | grep -v "^ok\|no test files" | head -5 )
for f in $SRC/*_test.go $SRC/*.go; do [ -f "$f" ] && cp $f $M/$DEST/ && cp $f $C/$DEST/; done
echo "--- demo WITH change:";    ( cd $M && eval "$CMD" 2>&1 | tail -4 )
echo "--- demo WITHOUT change:"; ( cd $C && eval "$CMD" 2>&1 | tail -2 )
for f in $SRC/*_test.go $SRC/*.go; do [ -f "$f" ] && rm -f $M/$DEST/$(basename $f); done
for c in $CHECKS; do echo "--- check $c against the change:"; VERIF_REPO=$M python3 /verif/run.py check $c --tier quick 2>&1 | grep -E "^VIOLATION|signature|^C[0-9]+ |INCONCLUSIVE|KNOWN|BUILD" | cut -c1-220 | head -8; done
rm -rf $M $C /verif/.build-mut
