#!/usr/bin/env python3
"""Mutation campaign (self-test of the checks, not a registered check).

For a seeded sample of one-line mutations of SAP/go-dblib (relational operator
flips, off-by-one, dropped negation, swapped boolean operator, dropped
statement) in the files the properties are anchored in:
  1. apply to a scratch copy, go build (skip if it does not compile),
  2. run the pinned suite on the copy (skip: killed by the existing tests),
  3. run the quick tier of the checks mapped to the file against the copy.
Writes mutation/results.jsonl; survivors are triaged by hand in DESIGN.md.

usage: campaign.py <worker-index> <workers> [max-per-file [sample-seed]]
"""
import json, os, random, re, shutil, subprocess, sys, tempfile, time

ENV = dict(os.environ, GOFLAGS="-mod=mod", GOPROXY="off", GOSUMDB="off", GOTOOLCHAIN="local")
FILES = {
    "tds/packetQueue.go": ["C15", "C01", "C02", "C10"],
    "tds/channel.go": ["C01", "C02", "C03", "C11", "C12", "C13", "C08"],
    "tds/conn.go": ["C12", "C14", "C02", "C13"],
    "tds/packet.go": ["C02", "C14", "C01", "C10"],
    "tds/packetHeader.go": ["C02", "C14", "C01", "C10"],
    "tds/login.go": ["C08", "C09"],
    "tds/loginConfig.go": ["C06", "C09", "C08"],
    "tds/crypto.go": ["C09", "C08", "C10"],
    "tds/field.go": ["C06", "C07", "C04", "C10", "C02"],
    "tds/fieldData.go": ["C06", "C07", "C04", "C10"],
    "tds/fieldFmt.go": ["C06", "C07", "C04", "C10"],
    "tds/packageDone.go": ["C06", "C07", "C03", "C10"],
    "tds/packageEED.go": ["C06", "C07", "C11", "C10"],
    "tds/packageEnvChange.go": ["C06", "C07", "C11", "C10"],
    "tds/packageParams.go": ["C06", "C07", "C04", "C10", "C02", "C03"],
    "tds/packageParamFmt.go": ["C06", "C07", "C04", "C10"],
    "tds/packageRowFmt.go": ["C06", "C07", "C04", "C10", "C02"],
    "tds/packageCapability.go": ["C06", "C07", "C08", "C10"],
    "tds/packageLoginAck.go": ["C06", "C07", "C08", "C10"],
    "tds/packageDynamic.go": ["C06", "C07", "C10"],
    "tds/packageLanguage.go": ["C06", "C07", "C10", "C01"],
    "tds/packageMsg.go": ["C06", "C07", "C08", "C10"],
    "tds/packageHeaderOnly.go": ["C12", "C02"],
    "tds/envChange.go": ["C11"],
    "tds/eedHook.go": ["C11"],
    "asetypes/bytes.go": ["C04", "C05", "C06"],
    "asetypes/goValue.go": ["C04", "C05", "C10", "C06"],
    "asetypes/decimal.go": ["C16", "C04", "C05"],
    "asetime/duration.go": ["C05", "C04"],
    "asetime/time.go": ["C05", "C04"],
    "dsn/parse.go": ["C17"],
    "dsn/format.go": ["C17"],
    "dsn/env.go": ["C17"],
    "namepool/pool.go": ["C18"],
    "capability/target.go": ["C19"],
    "capability/capability.go": ["C19"],
    "capability/versionComparer.go": ["C19"],
    "isolationlevels.go": ["C20"],
}
OPS = [
    ("lt->le", re.compile(r"(?<![<>=!])<(?![<=-])"), "<="),
    ("le->lt", re.compile(r"<=(?!=)"), "<"),
    ("gt->ge", re.compile(r"(?<![<>=!-])>(?![>=])"), ">="),
    ("ge->gt", re.compile(r">=(?!=)"), ">"),
    ("eq->ne", re.compile(r"=="), "!="),
    ("ne->eq", re.compile(r"!="), "=="),
    ("and->or", re.compile(r"&&"), "||"),
    ("or->and", re.compile(r"\|\|"), "&&"),
    ("plus1->0", re.compile(r"\+ 1\b"), "+ 0"),
    ("minus1->0", re.compile(r"- 1\b"), "- 0"),
    ("true->false", re.compile(r"\btrue\b"), "false"),
    ("false->true", re.compile(r"\bfalse\b"), "true"),
]
SKIP = re.compile(r"^\s*(//|\*|/\*)|fmt\.(Errorf|Sprintf)|errors\.New|log\.|String\(\) string|go:generate")


def candidates(path):
    out = []
    infunc_string = False
    with open(path) as f:
        lines = f.readlines()
    for i, ln in enumerate(lines):
        if re.match(r"^func .*\) String\(\) string", ln) or re.match(r"^func .*\) GoString\(\)", ln):
            infunc_string = True
        elif ln.startswith("}"):
            infunc_string = False
        if infunc_string or SKIP.search(ln):
            continue
        code = ln.split("//")[0]
        if '"' in code:
            code_nostr = re.sub(r'"(?:[^"\\]|\\.)*"', lambda m: " " * len(m.group(0)), code)
        else:
            code_nostr = code
        for name, rx, rep in OPS:
            for m in rx.finditer(code_nostr):
                out.append((i, name, m.start(), m.end(), rep))
        # dropped statement: a simple assignment / call line inside a function
        if re.match(r"^\t+[A-Za-z_][\w\.\[\]]* (=|\+=|-=) .*[^{,(]$", ln.rstrip("\n")) and "err" not in ln:
            out.append((i, "drop-stmt", 0, 0, None))
    return lines, out


def run(cmd, cwd=None, env=None, timeout=1500):
    try:
        p = subprocess.run(cmd, cwd=cwd, env=env or ENV, stdout=subprocess.PIPE, stderr=subprocess.STDOUT, text=True, timeout=timeout)
        return p.returncode, p.stdout
    except subprocess.TimeoutExpired:
        return 124, "timeout"


def main():
    widx, workers = int(sys.argv[1]), int(sys.argv[2])
    per_file = int(sys.argv[3]) if len(sys.argv) > 3 else 6
    rnd = random.Random(int(sys.argv[4]) if len(sys.argv) > 4 else 20260926)
    plan = []
    for rel, checks in sorted(FILES.items()):
        src = os.path.join("/repo", rel)
        if not os.path.exists(src):
            continue
        lines, cands = candidates(src)
        rnd.shuffle(cands)
        seen_lines = set()
        picked = 0
        for c in cands:
            if c[0] in seen_lines:
                continue
            seen_lines.add(c[0])
            plan.append((rel, checks, c))
            picked += 1
            if picked >= per_file * (2 if rel in ("tds/channel.go", "tds/conn.go", "tds/packetQueue.go", "tds/field.go", "tds/packet.go", "tds/login.go") else 1):
                break
    out = open("/verif/mutation/results-%d.jsonl" % widx, "a")
    done = set()
    for f in os.listdir("/verif/mutation"):
        if f.startswith("results") and f.endswith(".jsonl"):
            for l in open(os.path.join("/verif/mutation", f)):
                try:
                    done.add(json.loads(l)["id"])
                except Exception:
                    pass
    for n, (rel, checks, (ln, name, a, b, rep)) in enumerate(plan):
        if n % workers != widx:
            continue
        mid = "%s:%d:%s" % (rel, ln + 1, name)
        if mid in done:
            continue
        d = tempfile.mkdtemp(prefix="mutc.", dir="/tmp")
        rec = {"id": mid, "file": rel, "line": ln + 1, "op": name}
        try:
            run(["rsync", "-a", "--exclude", ".git", "/repo/", d + "/"])
            p = os.path.join(d, rel)
            lines = open(p).readlines()
            orig = lines[ln]
            if name == "drop-stmt":
                lines[ln] = re.match(r"^\t+", orig).group(0) + "// (dropped)\n"
            else:
                lines[ln] = orig[:a] + rep + orig[b:]
            rec["before"], rec["after"] = orig.strip(), lines[ln].strip()
            open(p, "w").writelines(lines)
            rc, o = run(["go", "build", "./..."], cwd=d)
            if rc != 0:
                rec["result"] = "does-not-compile"
                continue
            rc, o = run(["go", "vet", "./" + os.path.dirname(rel)], cwd=d)
            rc, o = run(["go", "test", "-vet=off", "-count=1", "./..."], cwd=d)
            if rc != 0:
                rec["result"] = "killed-by-pinned-suite"
                continue
            env = dict(ENV, VERIF_REPO=d, VERIF_MUT_BUILD="/verif/.build-mut-%d" % widx, VERIF_LEG_TIMEOUT="150")
            rec["checks"] = {}
            rec["result"] = "survived"
            for c in checks:
                t0 = time.time()
                rc, o = run(["python3", "/verif/run.py", "check", c, "--tier", "quick"], env=env)
                sigs = re.findall(r"signature: (.*)", o)
                rec["checks"][c] = {"rc": rc, "signatures": sigs[:3], "s": round(time.time() - t0, 1)}
                if rc == 1:
                    rec["result"] = "caught"
                    rec["caught_by"] = c
                    break
                if rc != 0:
                    # noticed, but without a verdict (typically: the mutant hangs
                    # and the shortened leg timeout of the campaign fired)
                    rec["result"] = "noticed-inconclusive"
                    rec["inconclusive_in"] = c
                    rec["tail"] = o[-600:]
                    break
        finally:
            shutil.rmtree(d, ignore_errors=True)
            shutil.rmtree("/verif/.build-mut-%d" % widx, ignore_errors=True)
            out.write(json.dumps(rec) + "\n")
            out.flush()


if __name__ == "__main__":
    main()
