#!/usr/bin/env python3
"""Orchestrator of the runtime-monitoring checks (python3 stdlib only).

  run.py check <ID> [--tier quick|thorough]   build workers from /repo's tree, run, classify, write evidence
  run.py replay <ID> <replay.json>             re-run one recorded case
  run.py build                                 build both worker flavours (setup_cmd)

Exit codes: 0 = property held on everything explored (known findings are
printed, not counted); 1 = at least one violation not listed in
known_findings.json (a line "VIOLATION property=<id> replay=<path>" each);
2 = inconclusive or harness failure (never prints VIOLATION).
"""
import fnmatch
import glob
import hashlib
import json
import os
import re
import shutil
import subprocess
import sys
import time

VERIF = os.path.dirname(os.path.abspath(__file__))
HARNESS = os.path.join(VERIF, "harness")
REPO = os.environ.get("VERIF_REPO", "/repo")
# VERIF_REPO=<scratch copy> (self-test with mutants only): build against that
# copy through a -modfile, with separate build output and evidence.
MUT = REPO != "/repo"
BUILD = os.path.join(VERIF, ".build")
if MUT:
    # VERIF_MUT_BUILD lets several mutant runs go on side by side
    BUILD = os.environ.get("VERIF_MUT_BUILD") or os.path.join(VERIF, ".build-mut")

ENV = dict(os.environ)
ENV.update({
    "GOFLAGS": "-mod=mod", "GOPROXY": "off", "GOSUMDB": "off", "GOTOOLCHAIN": "local",
    "CGO_ENABLED": "1",
})
ENV.setdefault("GOCACHE", os.path.join(os.path.expanduser("~"), ".cache", "go-build"))

sys.path.insert(0, VERIF)
from plans import PLANS  # noqa: E402


def log(*a):
    print(*a, file=sys.stderr, flush=True)


def build(flavour):
    """Build the worker from /repo's current working tree. flavour: plain|race."""
    os.makedirs(BUILD, exist_ok=True)
    out = os.path.join(BUILD, "vworker-" + flavour)
    cmd = ["go", "build", "-tags", "verif", "-o", out]
    if MUT:
        mf = os.path.join(BUILD, "go.mod")
        with open(os.path.join(HARNESS, "go.mod")) as f:
            txt = f.read().replace("=> /repo", "=> " + REPO)
        with open(mf, "w") as f:
            f.write(txt)
        shutil.copy(os.path.join(HARNESS, "go.sum"), os.path.join(BUILD, "go.sum"))
        cmd += ["-modfile", mf]
    if flavour == "race":
        cmd.insert(2, "-race")
    cmd.append("./cmd/vworker")
    t0 = time.time()
    p = subprocess.run(cmd, cwd=HARNESS, env=ENV, stdout=subprocess.PIPE, stderr=subprocess.STDOUT, text=True)
    if p.returncode != 0:
        log("BUILD FAILED (%s):\n%s" % (flavour, p.stdout))
        return None
    log("built %s in %.1fs" % (out, time.time() - t0))
    return out


def load_known():
    path = os.path.join(VERIF, "known_findings.json")
    if not os.path.exists(path):
        return {"findings": [], "fixed": []}
    with open(path) as f:
        return json.load(f)


RACE_HDR = "WARNING: DATA RACE"


def parse_race_logs(prefix):
    """Return list of (key, block) de-duplicated by the pair of outermost go-dblib frames."""
    blocks = []
    for path in sorted(glob.glob(prefix + ".*")):
        try:
            txt = open(path, errors="replace").read()
        except OSError:
            continue
        for blk in txt.split("==================")[0:]:
            if RACE_HDR in blk:
                blocks.append(blk)
    out = {}
    for blk in blocks:
        # the two access stacks: "Write at ... by goroutine N:" / "Previous read at ... by goroutine M:"
        stacks = re.split(r"\n(?=(?:Previous )?(?:[Rr]ead|[Ww]rite|[Aa]tomic [a-z]+) (?:at|of) )", blk)
        accs = [s for s in stacks if re.match(r"(?:Previous )?(?:[Rr]ead|[Ww]rite|[Aa]tomic)", s.strip())]
        keys = []
        dblib = False
        for s in accs[:2]:
            s = s.split("\nGoroutine ")[0]
            frames = re.findall(r"^\s{2}(\S+)\(\)\s*$", s, flags=re.M)
            lib = [f for f in frames if f.startswith("github.com/SAP/go-dblib/")]
            if lib:
                dblib = True
                keys.append(lib[-1].replace("github.com/SAP/go-dblib/", ""))  # outermost go-dblib frame
            elif frames:
                keys.append("harness:" + frames[0])
            else:
                keys.append("?")
        key = "|".join(sorted(keys))
        ent = out.setdefault(key, {"count": 0, "dblib": dblib, "block": blk.strip()[:6000]})
        ent["count"] += 1
    return out


def fatal_signature(stderr_text):
    """Signature of a process-fatal event from the worker's stderr."""
    m = re.search(r"^(panic: .*|fatal error: .*)$", stderr_text, flags=re.M)
    if not m:
        return None, None
    head = m.group(1)
    tail = stderr_text[m.start():]
    kind = "fatal" if head.startswith("fatal error") else "panic"
    msg = head.split(": ", 1)[1]
    msg = re.sub(r"\d+", "N", msg)[:80]
    # only the crashing goroutine's stack (the first block after the message) decides
    # whether go-dblib code is involved; a crash in harness-only frames is a harness fault
    blocks = tail.split("\n\n")
    crash = ""
    for b in blocks:
        if b.lstrip().startswith("goroutine "):
            crash = b
            break
    frame = None
    for line in crash.splitlines():
        if line.startswith("github.com/SAP/go-dblib/"):
            frame = re.sub(r"\(.*$", "", line).replace("github.com/SAP/go-dblib/", "")
            break
    if frame is None:
        return None, tail[:6000]
    return "%s/%s/%s" % (kind, frame, msg), tail[:6000]


def run_leg(prop, tier, seed, leg, bins, logdir):
    """Run one leg (possibly several batches). Returns (results, extra_violations, inconclusive, race_obs)."""
    flavour = leg.get("flavour", "plain")
    exe = bins[flavour]
    batches = leg.get("batches", {}).get(tier, 1) if isinstance(leg.get("batches"), dict) else leg.get("batches", 1)
    timeout = leg.get("timeout", {}).get(tier, 900) if isinstance(leg.get("timeout"), dict) else leg.get("timeout", 900)
    if MUT and os.environ.get("VERIF_LEG_TIMEOUT"):
        # mutation campaigns only: a mutant that hangs is noticed (inconclusive) sooner
        timeout = min(timeout, int(os.environ["VERIF_LEG_TIMEOUT"]))
    par = leg.get("parallel", 1)
    results, vio, inconcl = [], [], []
    race_prefix = os.path.join(logdir, "race-%s" % leg["name"])
    procs = []

    def start(b):
        out = os.path.join(logdir, "%s-%d.json" % (leg["name"], b))
        errf = os.path.join(logdir, "%s-%d.stderr" % (leg["name"], b))
        outf = os.path.join(logdir, "%s-%d.stdout" % (leg["name"], b))
        for pth in (out, errf, outf):
            if os.path.exists(pth):
                os.remove(pth)
        cmd = ["timeout", "-s", "QUIT", str(timeout), exe, prop, "--tier", tier, "--seed", str(seed),
               "--out", out, "--batch", "%d/%d" % (b, batches)]
        if leg.get("leg"):
            cmd += ["--leg", leg["leg"]]
        if leg.get("workers"):
            cmd += ["--workers", str(leg["workers"])]
        env = dict(ENV)
        if flavour == "race":
            env["GORACE"] = "halt_on_error=0 exitcode=0 log_path=%s" % race_prefix
        env.update(leg.get("env", {}))
        env["VERIF_LOGDIR"] = logdir
        env["VERIF_RUN_ID"] = str(os.getpid())
        p = subprocess.Popen(cmd, cwd=VERIF, env=env, stdout=open(outf, "w"), stderr=open(errf, "w"))
        return (b, p, out, errf)

    pending = list(range(batches))
    running = []
    while pending or running:
        while pending and len(running) < par:
            running.append(start(pending.pop(0)))
        b, p, out, errf = running.pop(0)
        rc = p.wait()
        errtxt = open(errf, errors="replace").read()
        if os.path.exists(out) and rc == 0:
            with open(out) as f:
                results.append(json.load(f))
            continue
        # the worker died; violations it had recorded before are in the
        # checkpoint it writes when a signature occurs for the first time
        if os.path.exists(out):
            try:
                with open(out) as f:
                    part = json.load(f)
                part["inconclusive"] = (part.get("inconclusive") or [])
                results.append(part)
            except Exception:
                pass
        last_case = None
        for line in errtxt.splitlines():
            if line.startswith("CASE "):
                last_case = line[5:]
        sig, tail = fatal_signature(errtxt)
        if sig is None and tail is not None:
            inconcl.append("leg %s batch %d: worker crashed in harness code (no go-dblib frame on the crashing goroutine), last case %s; see %s" % (leg["name"], b, last_case, errf))
            continue
        if rc == 124 or "SIGQUIT" in errtxt:
            inconcl.append("leg %s batch %d: watchdog fired after %ds (last case: %s); see %s" % (leg["name"], b, timeout, last_case, errf))
        elif sig:
            vio.append({"sig": "process-" + sig, "detail": "worker process died while running case [%s]:\n%s" % (last_case, tail),
                        "case": {"last_case": last_case, "leg": leg.get("leg", ""), "batch": "%d/%d" % (b, batches)}})
        else:
            inconcl.append("leg %s batch %d: worker exited %d without result; see %s" % (leg["name"], b, rc, errf))
    race_obs = parse_race_logs(race_prefix) if flavour == "race" else {}
    return results, vio, inconcl, race_obs


def write_replay(prop, v, legname):
    d = os.path.join(BUILD if MUT else VERIF, "replays", prop)
    os.makedirs(d, exist_ok=True)
    body = json.dumps({"property": prop, "sig": v["sig"], "detail": v["detail"], "leg": legname, "case": v.get("case")}, indent=1, sort_keys=True, default=str)
    h = hashlib.sha1((v["sig"] + json.dumps(v.get("case"), sort_keys=True, default=str)).encode()).hexdigest()[:12]
    path = os.path.join(d, h + ".json")
    with open(path, "w") as f:
        f.write(body)
    return path


def check(prop, tier):
    t0 = time.time()
    seed = int(os.environ.get("VERIF_SEED", "1") or "1")
    plan = PLANS[prop]
    logdir = os.path.join(BUILD, "logs", prop)
    shutil.rmtree(logdir, ignore_errors=True)
    os.makedirs(logdir, exist_ok=True)
    evidence_path = os.path.join(BUILD if MUT else VERIF, "evidence", prop + ".json")
    os.makedirs(os.path.dirname(evidence_path), exist_ok=True)

    legs = [l for l in plan["legs"] if tier in l.get("tiers", ("quick", "thorough"))]
    bins = {}
    for fl in sorted({l.get("flavour", "plain") for l in legs}):
        bins[fl] = build(fl)
        if bins[fl] is None:
            print("INCONCLUSIVE property=%s harness does not build against /repo" % prop)
            return 2

    known = load_known()
    open_findings = [k for k in known.get("findings", []) if k["property"] == prop]

    merged = {"evaluations": 0, "distinct_ctr": 0, "distinct_keys": set(), "samples": [], "counters": {}, "sets": {},
              "notes": [], "assumptions": [], "trusted_base": [], "rule": "", "exhaustive": True}
    all_vio = []  # (violation, legname)
    vio_counts = {}
    inconclusive = []
    race_report = {}
    for leg in legs:
        results, vio, inconcl, race_obs = run_leg(prop, tier, seed, leg, bins, logdir)
        inconclusive += inconcl
        for v in vio:
            all_vio.append((v, leg.get("leg", "")))
            vio_counts[v["sig"]] = vio_counts.get(v["sig"], 0) + 1
        for r in results:
            merged["evaluations"] += r["evaluations"]
            merged["distinct_ctr"] += r["distinct_by_construction"]
            merged["distinct_keys"].update(r.get("distinct_keys") or [])
            for s in r.get("samples") or []:
                if len(merged["samples"]) < 16:
                    merged["samples"].append(s)
            for k, n in (r.get("counters") or {}).items():
                if k.startswith("max_"):
                    merged["counters"][k] = max(merged["counters"].get(k, 0), n)
                else:
                    merged["counters"][k] = merged["counters"].get(k, 0) + n
            for k, l in (r.get("sets") or {}).items():
                merged["sets"].setdefault(k, set()).update(l)
            merged["notes"] += r.get("notes") or []
            inconclusive += r.get("inconclusive") or []
            for a in r.get("assumptions") or []:
                if a not in merged["assumptions"]:
                    merged["assumptions"].append(a)
            for a in r.get("trusted_base") or []:
                if a not in merged["trusted_base"]:
                    merged["trusted_base"].append(a)
            if r.get("rule") and r["rule"] not in merged["rule"]:
                merged["rule"] = (merged["rule"] + " || " if merged["rule"] else "") + r["rule"]
            merged["exhaustive"] = merged["exhaustive"] and bool(r.get("exhaustive"))
            for v in r.get("violations") or []:
                all_vio.append((v, leg.get("leg", "")))
            for s, n in (r.get("violation_counts") or {}).items():
                vio_counts[s] = vio_counts.get(s, 0) + n
        for key, ent in race_obs.items():
            race_report[key] = {"count": ent["count"], "go_dblib_frame": ent["dblib"], "leg": leg["name"]}
            if not ent["dblib"]:
                inconclusive.append("race report with harness frames only (%s): the harness is at fault" % key)
            elif leg.get("race_is_violation"):
                v = {"sig": "race/" + key, "detail": ent["block"], "case": {"entry_points": key, "leg": leg["name"]}}
                all_vio.append((v, leg.get("leg", "")))
                vio_counts[v["sig"]] = vio_counts.get(v["sig"], 0) + ent["count"]

    # classify
    seen_known = {}
    new_vio = []
    for v, legname in all_vio:
        hit = None
        for k in open_findings:
            if v["sig"] == k["signature"] or fnmatch.fnmatchcase(v["sig"], k["signature"]):
                hit = k
                break
        if hit is not None:
            seen_known.setdefault(hit["signature"], {"what": hit["what"], "count": 0, "sigs": set()})
            seen_known[hit["signature"]]["sigs"].add(v["sig"])
        else:
            new_vio.append((v, legname))
    for s, n in vio_counts.items():
        for k in open_findings:
            if s == k["signature"] or fnmatch.fnmatchcase(s, k["signature"]):
                if k["signature"] in seen_known:
                    seen_known[k["signature"]]["count"] += n
                break

    distinct = merged["distinct_ctr"] + len(merged["distinct_keys"])
    if merged["evaluations"] == 0 or distinct < 2:
        inconclusive.append("the monitors observed too little (evaluations=%d, distinct non-trivial=%d)" % (merged["evaluations"], distinct))

    replays = []
    for v, legname in new_vio:
        replays.append((v, write_replay(prop, v, legname)))

    n_new = sum(n for s, n in vio_counts.items()
                if not any(s == k["signature"] or fnmatch.fnmatchcase(s, k["signature"]) for k in open_findings))
    cov = {
        "evaluations": merged["evaluations"],
        "distinct_nontrivial": distinct,
        "rule": merged["rule"],
        "samples": merged["samples"] or [{"note": "no sample recorded"}],
        "exhaustive": bool(merged["exhaustive"] and plan.get("exhaustive", False)),
        "monitor_counters": merged["counters"],
        "distinct_sets": {k: len(s) for k, s in merged["sets"].items()},
        "set_members_sample": {k: sorted(s)[:12] for k, s in merged["sets"].items()},
        "trusted_base": merged["trusted_base"],
        "legs": [l["name"] + ":" + l.get("flavour", "plain") for l in legs],
        "notes": merged["notes"][:40],
        "race_reports": race_report,
        "known_findings_seen": [{"signature": s, "what": e["what"], "occurrences": e["count"]} for s, e in sorted(seen_known.items())],
        "violation_signatures": sorted({v["sig"] for v, _ in new_vio}),
        "inconclusive": inconclusive[:40],
    }
    ev = {
        "property_id": prop, "tier": tier, "seed": seed, "level": plan["level"],
        "coverage": cov, "assumptions": merged["assumptions"],
        "wall_s": round(time.time() - t0, 2), "violations": int(n_new),
    }
    with open(evidence_path, "w") as f:
        json.dump(ev, f, indent=1, sort_keys=True)
        f.write("\n")

    for s, e in sorted(seen_known.items()):
        print("KNOWN-FINDING: property=%s %s [signature %s, %d occurrence(s) this run]" % (prop, e["what"], s, e["count"]))
    # known findings listed but not seen: say so (does not change the verdict)
    for k in open_findings:
        if k["signature"] not in seen_known:
            log("note: known finding %r was not observed in this run" % k["signature"])
    printed = set()
    for v, path in replays:
        if v["sig"] in printed:
            continue
        printed.add(v["sig"])
        print("VIOLATION property=%s replay=%s" % (prop, path))
        print("  signature: %s" % v["sig"])
        print("  " + v["detail"][:600].replace("\n", "\n  "))
    print("%s %s: evaluations=%d distinct_nontrivial=%d new_violations=%d known=%d inconclusive=%d wall=%.1fs" % (
        prop, tier, merged["evaluations"], distinct, n_new, len(seen_known), len(inconclusive), time.time() - t0))
    if replays:
        return 1
    if inconclusive:
        for i in inconclusive[:10]:
            print("INCONCLUSIVE property=%s %s" % (prop, i))
        return 2
    return 0


def replay(prop, path):
    plan = PLANS[prop]
    flavour = plan.get("replay_flavour", "plain")
    exe = build(flavour)
    if exe is None:
        return 2
    env = dict(ENV)
    if flavour == "race":
        env["GORACE"] = "halt_on_error=0 exitcode=1"
    p = subprocess.run([exe, prop, "--replay", path], cwd=VERIF, env=env)
    if p.returncode == 1:
        print("VIOLATION property=%s replay=%s" % (prop, path))
    return p.returncode


def main():
    if len(sys.argv) < 2:
        print(__doc__)
        return 2
    cmd = sys.argv[1]
    if cmd == "build":
        ok = build("plain") and build("race")
        return 0 if ok else 1
    if cmd == "check":
        prop = sys.argv[2]
        tier = os.environ.get("VERIF_TIER") or "quick"
        if "--tier" in sys.argv:
            tier = sys.argv[sys.argv.index("--tier") + 1]
        return check(prop, tier)
    if cmd == "replay":
        return replay(sys.argv[2], sys.argv[3])
    print(__doc__)
    return 2


def _sweep_tmp():
    # socket directories of workers the watchdog had to kill (a worker removes its own when it ends)
    import glob, shutil, tempfile
    for d in glob.glob(os.path.join(tempfile.gettempdir(), "vsock-%d-*" % os.getpid())):
        shutil.rmtree(d, ignore_errors=True)


if __name__ == "__main__":
    try:
        rc = main()
    finally:
        _sweep_tmp()
    sys.exit(rc)
