#!/usr/bin/env python3
"""Regenerates MANIFEST.json from plans.py (claimed checks) and manifest_texts.py."""
import json, os, subprocess, sys
sys.path.insert(0, os.path.dirname(os.path.abspath(__file__)))
from plans import PLANS, WIP
PLANS = {k: v for k, v in PLANS.items() if k not in WIP}
from manifest_texts import TEXTS, NOT_BUILT_REASON

ALL = ["C%02d" % i for i in range(1, 21)]
hook_commits = subprocess.run(["git", "-C", "/repo", "log", "--format=%H", "--grep=^verif hook"], stdout=subprocess.PIPE, text=True).stdout.split()
m = {
    "version": 1,
    "setup_cmd": "python3 run.py build",
    "hooks": {
        "guard": "verif",
        "enable": "go build -tags verif (the harness module /verif/harness replaces github.com/SAP/go-dblib => /repo and is always built with -tags verif)",
        "baseline_off_cmd": "cd /repo && GOFLAGS=-mod=mod GOPROXY=off GOSUMDB=off GOTOOLCHAIN=local go test -json -vet=off -count=1 -timeout 25m ./...",
        "source_commits": hook_commits,
        "add_only": True,
    },
    "engines": [{
        "name": "vworker", "path": "harness/cmd/vworker",
        "serves_properties": [p for p in ALL if p in PLANS],
        "kind_free_text": "Go worker (plain and -race flavour) that drives the real go-dblib code built from /repo under generated workloads with monitors (reference models, event-log checkers, panic/allocation/goroutine monitors, porcupine); orchestrated by run.py (child processes, watchdogs, race-log parsing, known-finding classification, evidence)",
    }],
    "checks": [],
    "not_applicable": [],
    "notes": "All checks are runtime monitoring: they run the real code and judge recorded executions. Exit 2 = inconclusive (never VIOLATION). Known findings: known_findings.json.",
}
for p in ALL:
    if p in PLANS:
        t = TEXTS[p]
        m["checks"].append({
            "property_id": p,
            "quick_cmd": "python3 run.py check %s --tier quick" % p,
            "thorough_cmd": "python3 run.py check %s --tier thorough" % p,
            "evidence_file": "evidence/%s.json" % p,
            "replay_cmd_template": "python3 run.py replay %s {path}" % p,
            "engine": "vworker",
            "level_claimed": {"category": PLANS[p]["level"], "text": t["text"], "design_ref": "DESIGN.md §4 " + p},
            "level_note": t["note"],
            "technique": t["technique"],
        })
    else:
        m["not_applicable"].append({"property_id": p, "reason": NOT_BUILT_REASON})
json.dump(m, open(os.path.join(os.path.dirname(os.path.abspath(__file__)), "MANIFEST.json"), "w"), indent=1)
print("MANIFEST.json: %d checks, %d not_applicable" % (len(m["checks"]), len(m["not_applicable"])))
