"""Per-property run plans: level claimed and the legs (worker invocations)."""

def leg(name, flavour="plain", leg="", batches=1, timeout=None, parallel=1, tiers=("quick", "thorough"), race_is_violation=False, workers=None, env=None):
    d = {"name": name, "flavour": flavour, "leg": leg, "batches": batches, "parallel": parallel,
         "tiers": tiers, "race_is_violation": race_is_violation,
         "timeout": timeout or {"quick": 600, "thorough": 3000}}
    if workers:
        d["workers"] = workers
    if env:
        d["env"] = env
    return d

PLANS = {
    "C03": {"level": "exploration", "exhaustive": False, "legs": [leg("main")]},
    "C01": {"level": "exploration", "exhaustive": False, "legs": [leg("main")]},
    "C02": {"level": "exploration", "exhaustive": False, "legs": [leg("main"), leg("race", flavour="race", tiers=("thorough",), env={"VERIF_SMALL": "1"})]},
    "C04": {"level": "exploration", "exhaustive": False, "legs": [leg("main")]},
    "C05": {"level": "exploration", "exhaustive": False, "legs": [leg("main")]},
    "C06": {"level": "exploration", "exhaustive": False, "legs": [leg("main")]},
    "C07": {"level": "exploration", "exhaustive": False, "legs": [leg("main")]},
    "C08": {"level": "exploration", "exhaustive": False, "legs": [leg("main"), leg("race", flavour="race", tiers=("thorough",), env={"VERIF_SMALL": "1"})]},
    "C09": {"level": "exploration", "exhaustive": False, "legs": [leg("main"), leg("race", flavour="race", tiers=("thorough",), env={"VERIF_SMALL": "1"})]},
    "C10": {"level": "exploration", "exhaustive": False, "legs": [
        # one goroutine per process (exact per-attempt allocation deltas); parallelism = batches
        leg("direct", leg="direct", batches={"quick": 16, "thorough": 64}, parallel=16, workers=1),
        leg("value", leg="value", workers=1),
        # each batch is a supervisor that pipes cases to restartable conn-child processes
        leg("conn", leg="conn", batches={"quick": 8, "thorough": 32}, parallel=8, workers=1),
        # one child process per case; the String() sites copy multi-GiB buffers
        leg("bigalloc", leg="bigalloc", batches={"quick": 1, "thorough": 3}, parallel=3, workers=1),
        # client calls after / around hostile-but-parseable server bytes (mid-message packet size change, login negotiation replies)
        leg("state", leg="state", workers=1),
        # memory still held after many small responses were received and consumed (own process: live-heap measurement)
        leg("retain", leg="retain", workers=1),
    ]},
    "C11": {"level": "exploration", "exhaustive": False, "legs": [leg("main"), leg("race", flavour="race", tiers=("thorough",), env={"VERIF_SMALL": "1"})]},
    "C12": {"level": "exploration", "exhaustive": False, "replay_flavour": "race",
            "legs": [leg("main", flavour="race", race_is_violation=True, batches={"quick": 4, "thorough": 32}, parallel=4,
                         timeout={"quick": 600, "thorough": 3000})]},
    "C13": {"level": "fault_enumeration", "exhaustive": False, "legs": [leg("main", timeout={"quick": 900, "thorough": 3000}), leg("race", flavour="race", tiers=("thorough",), env={"VERIF_SMALL": "1"})]},
    "C14": {"level": "fault_enumeration", "exhaustive": False, "legs": [leg("main"), leg("race", flavour="race", tiers=("thorough",), env={"VERIF_SMALL": "1"})]},
    "C15": {"level": "exploration", "exhaustive": False, "legs": [leg("main")]},
    "C16": {"level": "exploration", "exhaustive": False, "replay_flavour": "race",
            "legs": [leg("main"),
                     # the first conversions of a process made by 8 goroutines at once, under the race detector
                     leg("parse-race", leg="parse-race", flavour="race", race_is_violation=True, workers=1)]},
    "C19": {"level": "exploration", "exhaustive": False, "legs": [leg("main")]},
    "C17": {"level": "exploration", "exhaustive": False, "legs": [leg("main")]},
    "C18": {"level": "exploration", "exhaustive": False, "replay_flavour": "race",
            "legs": [leg("main", flavour="race", race_is_violation=True)]},
    "C20": {"level": "exploration", "exhaustive": True, "legs": [leg("main")]},
}

# checks that exist but are not claimed yet (work in progress: not silent on the current tree)
WIP = set()
